// Replay for C08 rule scan-cursor-discipline: backend::pointwise_matrix(A, b) must return, for every b x b block of A that holds an
// entry, the largest norm in that block.  Build: g++ -std=gnu++17 -O1 -fopenmp -I<repo> C08_pointwise_matrix.cpp ; exit 0 = holds.
#include <vector>
#include <iostream>
#include <map>
#include <cmath>
#include <random>
#include <amgcl/backend/builtin.hpp>
#include <amgcl/adapter/crs_tuple.hpp>
int main() {
    std::mt19937 g(7);
    int bad = 0, checked = 0;
    for (int trial = 0; trial < 200; ++trial) {
        int b = 2 + trial % 3, nb = 3 + trial % 4, n = b * nb;
        std::vector<ptrdiff_t> ptr(1, 0), col; std::vector<double> val;
        std::map<std::pair<int,int>, double> ref;
        for (int i = 0; i < n; ++i) {
            for (int j = 0; j < n; ++j) {
                bool keep = (i == j) || (g() % 3 == 0);
                if (!keep) continue;
                double v = (i == j ? 4.0 : -1.0 - (g() % 100) / 10.0);
                col.push_back(j); val.push_back(v);
                auto key = std::make_pair(i / b, j / b);
                ref[key] = std::max(ref.count(key) ? ref[key] : 0.0, std::abs(v));
            }
            ptr.push_back(col.size());
        }
        amgcl::backend::crs<double> A(std::tie(n, ptr, col, val));
        auto Ap = amgcl::backend::pointwise_matrix(A, b);
        std::map<std::pair<int,int>, double> got;
        for (int i = 0; i < nb; ++i) for (ptrdiff_t j = Ap->ptr[i]; j < Ap->ptr[i+1]; ++j) got[std::make_pair(i, (int)Ap->col[j])] = Ap->val[j];
        ++checked;
        if (got.size() != ref.size()) { ++bad; continue; }
        for (auto &kv : ref) if (!got.count(kv.first) || std::abs(got[kv.first] - kv.second) > 1e-14) { ++bad; break; }
    }
    // the 2x4 example: row 0 has (0,0)=1, (0,2)=5; row 1 has (1,3)=7; block size 2 -> pointwise (0,1) must be 7
    {
        int n = 2; std::vector<ptrdiff_t> ptr = {0, 2, 3}, col = {0, 2, 3}; std::vector<double> val = {1, 5, 7};
        amgcl::backend::crs<double> A; A.set_size(2, 4); A.ptr[0] = 0; A.ptr[1] = 2; A.ptr[2] = 3; A.set_nonzeros(3);
        for (int k = 0; k < 3; ++k) { A.col[k] = col[k]; A.val[k] = val[k]; }
        auto Ap = amgcl::backend::pointwise_matrix(A, 2);
        double v01 = 0; for (ptrdiff_t j = Ap->ptr[0]; j < Ap->ptr[1]; ++j) if (Ap->col[j] == 1) v01 = Ap->val[j];
        std::cout << "2x4 example: pointwise(0,1) = " << v01 << " (expected 7)" << std::endl;
        if (v01 != 7) ++bad;
    }
    std::cout << checked << " random matrices checked, " << bad << " disagree with the dense definition" << std::endl;
    std::cout << (bad ? "FAIL" : "PASS") << std::endl;
    return bad ? 1 : 0;
}
