// Replay of the C05 finding "conjugation side of inner products in BiCGStab / IDR(s)" (rule conj-consistency).
// amgcl::math::inner_product(x, y) = sum x_i * conj(y_i)  (conjugate-linear in the SECOND argument, C07).
// BiCGStab needs  alpha = rho / (rh^H v) = rho / <v, rh>   and   omega = (t^H s)/(t^H t) = <s, t>/<t, t>.
// Build: g++ -std=gnu++17 -O1 -fopenmp -I<repo> C05_complex_krylov_conjugation.cpp && ./a.out
// Exit 0 (PASS) when amgcl's BiCGStab / IDR(s) converge on a complex non-Hermitian system like the reference does.
#include <complex>
#include <vector>
#include <iostream>
#include <tuple>
#include <amgcl/backend/builtin.hpp>
#include <amgcl/value_type/complex.hpp>
#include <amgcl/adapter/crs_tuple.hpp>
#include <amgcl/make_solver.hpp>
#include <amgcl/preconditioner/dummy.hpp>
#include <amgcl/solver/bicgstab.hpp>
#define private public   // replay only: call idrs::omega directly
#include <amgcl/solver/idrs.hpp>
#undef private
#include <amgcl/profiler.hpp>
namespace amgcl { profiler<> prof; }
typedef std::complex<double> C;
typedef amgcl::backend::builtin<C> B;

int main() {
    const int n = 60;
    std::vector<ptrdiff_t> ptr(1, 0), col; std::vector<C> val;
    for (int i = 0; i < n; ++i) {                       // complex-shifted convection-diffusion: non-Hermitian, well conditioned
        if (i > 0)     { col.push_back(i - 1); val.push_back(C(-1.0, 0.6)); }
        col.push_back(i); val.push_back(C(3.0, 1.0 + 0.01 * i));
        if (i + 1 < n) { col.push_back(i + 1); val.push_back(C(-0.4, -0.9)); }
        ptr.push_back(col.size());
    }
    std::vector<C> f(n); for (int i = 0; i < n; ++i) f[i] = C(1.0 + 0.1 * i, 0.5 - 0.05 * i);
    auto A = std::tie(n, ptr, col, val);
    int bad = 0;
    {
        typedef amgcl::make_solver<amgcl::preconditioner::dummy<B>, amgcl::solver::bicgstab<B>> S;
        S::params prm; prm.solver.maxiter = 200; prm.solver.tol = 1e-10;
        S solve(A, prm); std::vector<C> x(n, C(0));
        size_t it; double res; std::tie(it, res) = solve(f, x);
        std::cout << "bicgstab: iterations " << it << " residual " << res << std::endl;
        if (!(res < 1e-8)) ++bad;
    }
    {
        typedef amgcl::make_solver<amgcl::preconditioner::dummy<B>, amgcl::solver::idrs<B>> S;
        S::params prm; prm.solver.maxiter = 200; prm.solver.tol = 1e-10; prm.solver.smoothing = true; prm.solver.s = 2;
        S solve(A, prm); std::vector<C> x(n, C(0));
        size_t it; double res; std::tie(it, res) = solve(f, x);
        // true residual of the returned (smoothed) iterate
        double rn = 0, fn = 0;
        for (int i = 0; i < n; ++i) { C r = f[i]; for (ptrdiff_t j = ptr[i]; j < ptr[i+1]; ++j) r -= val[j] * x[col[j]]; rn += std::norm(r); fn += std::norm(f[i]); }
        std::cout << "idrs(smoothing): iterations " << it << " reported " << res << " true " << std::sqrt(rn / fn) << std::endl;
        if (!(std::sqrt(rn / fn) < 1e-8)) ++bad;
    }
    {
        // IDR(s): omega must minimise ||s - omega t||, i.e. t^H (s - omega t) = 0  (prm.omega = 0 switches the 'maintaining' strategy off)
        typedef amgcl::solver::idrs<B> IDRS;
        IDRS::params prm; prm.omega = 0;
        IDRS solver(4, prm);
        std::vector<C> t = {C(1, 2), C(0.5, -1), C(-2, 0.3), C(0.1, 0.7)}, s = {C(0.3, -0.4), C(2, 1), C(-1, -1), C(0.6, 0.2)};
        C om = solver.omega(t, s), proj(0);
        for (int i = 0; i < 4; ++i) proj += std::conj(t[i]) * (s[i] - om * t[i]);
        std::cout << "idrs::omega: |t^H (s - omega t)| = " << std::abs(proj) << std::endl;
        if (!(std::abs(proj) < 1e-12)) ++bad;
    }
    std::cout << (bad ? "FAIL" : "PASS") << std::endl;
    return bad ? 1 : 0;
}
