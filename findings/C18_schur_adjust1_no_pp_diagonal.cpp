// Replay of the C18 finding "Schur pressure correction, adjust_p = 1: the diagonal correction is added back for pressure rows that
// store no diagonal entry, although it was never subtracted there" (rule schur-adjust-consistent).
//   init():  L[i] = dia(Kpu dia(Kuu)^-1 Kup)[i] for EVERY pressure row i;  Kpp(i,i) -= L[i] only where the row stores a diagonal entry
//   spmv():  y = beta y + alpha (P.system_matrix() x + Ld x) - alpha Kpu Kuu^-1 Kup x
// For a pressure row without a stored diagonal (the zero pp block of Stokes-type systems is usually not stored at all) the operator the
// pressure solver iterates on is S + L[i] e_i e_i^T instead of the Schur complement S: with exact inner solves the type-1 preconditioner
// is not the inverse of K and type 2 does not solve the block-triangular system (C18, first sentence, "every adjust_p setting").
// adjust_p = 1 is the default.
// Build: g++ -std=gnu++17 -O1 -fopenmp -I<repo> C18_schur_adjust1_no_pp_diagonal.cpp && ./a.out      exit 0 / PASS when the property holds
#include <vector>
#include <cmath>
#include <cstdio>
#include <tuple>
#include <memory>
#include <amgcl/backend/builtin.hpp>
#include <amgcl/adapter/crs_tuple.hpp>
#include <amgcl/make_solver.hpp>
#include <amgcl/solver/preonly.hpp>
#include <amgcl/solver/gmres.hpp>
#include <amgcl/solver/bicgstab.hpp>
#include <amgcl/solver/skyline_lu.hpp>
#include <amgcl/preconditioner/dummy.hpp>
#include <amgcl/preconditioner/schur_pressure_correction.hpp>
#include <amgcl/profiler.hpp>
namespace amgcl { profiler<> prof; }
typedef amgcl::backend::builtin<double> Backend;

template <class B> struct lu_precond {      // exact "preconditioner": sparse LU of the matrix it is given
    typedef B backend_type; typedef typename B::matrix matrix; typedef typename B::value_type value_type;
    typedef typename B::params backend_params; typedef amgcl::detail::empty_params params;
    typedef typename amgcl::backend::builtin<value_type>::matrix build_matrix;
    template <class Matrix> lu_precond(const Matrix &M, const params& = params(), const backend_params& = backend_params()) : A(std::make_shared<build_matrix>(M)), lu(*A) {}
    lu_precond(std::shared_ptr<build_matrix> M, const params& = params(), const backend_params& = backend_params()) : A(M), lu(*A) {}
    template <class V1, class V2> void apply(const V1 &rhs, V2 &&x) const { lu(rhs, x); }
    std::shared_ptr<matrix> system_matrix_ptr() const { return A; }
    const matrix& system_matrix() const { return *A; }
    size_t bytes() const { return 0; }
    friend std::ostream& operator<<(std::ostream &os, const lu_precond&) { return os << "LU"; }
    std::shared_ptr<build_matrix> A; amgcl::solver::skyline_lu<value_type> lu;
};
typedef std::vector<double> vec;
static vec dense_solve(std::vector<vec> A, vec b) {
    int n = b.size();
    for (int c = 0; c < n; ++c) {
        int p = c; for (int i = c + 1; i < n; ++i) if (std::fabs(A[i][c]) > std::fabs(A[p][c])) p = i;
        std::swap(A[c], A[p]); std::swap(b[c], b[p]);
        for (int i = c + 1; i < n; ++i) { double f = A[i][c] / A[c][c]; for (int j = c; j < n; ++j) A[i][j] -= f * A[c][j]; b[i] -= f * b[c]; }
    }
    for (int i = n; i-- > 0;) { for (int k = i + 1; k < n; ++k) b[i] -= A[i][k] * b[k]; b[i] /= A[i][i]; }
    return b;
}
template <template <class, class> class Krylov>
static int run(const char *kname, bool store_pp_diagonal) {
    typedef amgcl::make_solver<lu_precond<Backend>, amgcl::solver::preonly<Backend>> USolver;
    typedef amgcl::make_solver<amgcl::preconditioner::dummy<Backend>, Krylov<Backend, amgcl::solver::detail::default_inner_product>> PSolver;
    typedef amgcl::preconditioner::schur_pressure_correction<USolver, PSolver> Schur;
    // 1D Stokes-like system: nu velocities (tridiagonal, diagonally dominant), np pressures coupled through a bidiagonal gradient;
    // the pp block is zero except for a weak off-diagonal stabilisation; its diagonal is zero
    const int nu = 14, np = 7, n = nu + np;
    std::vector<vec> K(n, vec(n, 0.0));
    for (int i = 0; i < nu; ++i) { K[i][i] = 4.0 + 0.1 * i; if (i) K[i][i - 1] = -1.0; if (i + 1 < nu) K[i][i + 1] = -1.2; }
    for (int q = 0; q < np; ++q) { int a = 2 * q, b = 2 * q + 1; K[a][nu + q] = 1.0; K[b][nu + q] = -0.7; K[nu + q][a] = 0.9; K[nu + q][b] = -1.1; if (q) { K[nu + q][2 * q - 1] = 0.4; K[2 * q - 1][nu + q] = 0.3; } }
    for (int q = 0; q + 1 < np; ++q) { K[nu + q][nu + q + 1] = 0.05; K[nu + q + 1][nu + q] = -0.04; }
    std::vector<char> pm(n, 0); for (int q = 0; q < np; ++q) pm[nu + q] = 1;
    std::vector<ptrdiff_t> ptr(1, 0), col; vec val;
    for (int i = 0; i < n; ++i) {
        for (int j = 0; j < n; ++j) if (K[i][j] != 0.0 || (store_pp_diagonal && i == j)) { col.push_back(j); val.push_back(K[i][j]); }   // explicit zero on the pp diagonal, or nothing
        ptr.push_back(col.size());
    }
    int bad = 0;
    for (int adjust_p = 0; adjust_p <= 2; ++adjust_p) {
        typename Schur::params prm; prm.type = 1; prm.adjust_p = adjust_p; prm.approx_schur = false; prm.pmask = pm;
        prm.psolver.solver.tol = 1e-13; prm.psolver.solver.maxiter = 500;
        Schur P(std::tie(n, ptr, col, val), prm);
        vec f(n), x(n, 0.0); for (int i = 0; i < n; ++i) f[i] = std::sin(1.0 + i);
        P.apply(f, x);
        vec ref = dense_solve(K, f);
        double err = 0, nrm = 0; for (int i = 0; i < n; ++i) { err = std::max(err, std::fabs(x[i] - ref[i])); nrm = std::max(nrm, std::fabs(ref[i])); }
        bool ok = err <= 1e-8 * nrm;
        std::printf("  %-8s pp diagonal %-10s adjust_p=%d : |apply(f) - K^-1 f| / |K^-1 f| = %.3e %s\n", kname, store_pp_diagonal ? "stored (0)" : "not stored", adjust_p, err / nrm, ok ? "" : "  <-- not the inverse");
        if (!ok) ++bad;
    }
    return bad;
}
int main() {
    int bad = 0;
    bad += run<amgcl::solver::gmres>("gmres", true);
    bad += run<amgcl::solver::gmres>("gmres", false);
    bad += run<amgcl::solver::bicgstab>("bicgstab", true);
    bad += run<amgcl::solver::bicgstab>("bicgstab", false);
    std::printf("%s\n", bad ? "FAIL" : "PASS");
    return bad ? 1 : 0;
}
