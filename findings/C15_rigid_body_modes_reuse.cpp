// Replay of the C15 / C10 finding "rigid_body_modes relies on resize(n, 0.0) to zero its output" (rule F.resize-is-not-reset).
// coarsening::rigid_body_modes(ndim, coo, B) did `B.resize(n * nmodes, 0.0)` and then assigned only the non-zero entries of the six
// (three) rigid body modes.  std::vector::resize value-initialises only NEW elements: when the caller's B already holds something -
// the modes of a previous mesh, in a time loop or a parameter study - the entries that should be zero keep their old values, and the
// near-null space handed to the coarsening is wrong (it is a function of the previous call, not of the inputs).
// Build: g++ -std=gnu++17 -O1 -I<repo> C15_rigid_body_modes_reuse.cpp && ./a.out
// Exit 0 (PASS) when a second call into the same vector gives exactly what a call into a fresh vector gives.
#include <vector>
#include <iostream>
#include <cmath>
#include <amgcl/coarsening/rigid_body_modes.hpp>

int main() {
    const int nodes = 5;
    std::vector<double> coo1(3 * nodes), coo2(3 * nodes);
    for (int i = 0; i < 3 * nodes; ++i) { coo1[i] = 0.3 * i + 0.1 * (i % 3); coo2[i] = 1.0 - 0.07 * i * (1 + i % 2); }
    int bad = 0;
    for (int transpose = 0; transpose < 2; ++transpose) {
        std::vector<double> B, Bfresh;
        amgcl::coarsening::rigid_body_modes(3, coo1, B, transpose);             // first mesh
        amgcl::coarsening::rigid_body_modes(3, coo2, B, !transpose);            // second mesh, other layout, same vector
        amgcl::coarsening::rigid_body_modes(3, coo2, Bfresh, !transpose);
        double d = 0; for (size_t i = 0; i < B.size(); ++i) d = std::max(d, std::abs(B[i] - Bfresh[i]));
        std::cout << "reuse of the output vector (layout " << transpose << " then " << !transpose << "): max |B_reused - B_fresh| = " << d << std::endl;
        if (d != 0) ++bad;
    }
    std::cout << (bad ? "FAIL" : "PASS") << std::endl;
    return bad ? 1 : 0;
}
