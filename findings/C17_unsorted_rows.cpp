#include <iostream>
#include <vector>
#include <amgcl/backend/builtin.hpp>
#include <amgcl/adapter/crs_tuple.hpp>
#include <amgcl/make_solver.hpp>
#include <amgcl/amg.hpp>
#include <amgcl/coarsening/smoothed_aggregation.hpp>
#include <amgcl/relaxation/spai0.hpp>
#include <amgcl/relaxation/ilu0.hpp>
#include <amgcl/relaxation/as_preconditioner.hpp>
#include <amgcl/preconditioner/cpr.hpp>
#include <amgcl/solver/bicgstab.hpp>
typedef amgcl::backend::builtin<double> B;
int main(int argc, char **argv) {
    // 1D Laplacian, n = 6, entries of each row listed in REVERSED (descending column) order: a valid CRS matrix
    int n = 6; std::vector<int> ptr{0}, col; std::vector<double> val, rhs(n, 1.0), x(n, 0.0);
    for (int i = 0; i < n; ++i) {
        if (i + 1 < n) { col.push_back(i + 1); val.push_back(-1); }
        col.push_back(i); val.push_back(2);
        if (i > 0) { col.push_back(i - 1); val.push_back(-1); }
        ptr.push_back(col.size());
    }
    auto A = std::tie(n, ptr, col, val);
    int fails = 0;
    try {
        amgcl::make_solver<amgcl::relaxation::as_preconditioner<B, amgcl::relaxation::ilu0>, amgcl::solver::bicgstab<B>> s(A);
        size_t it; double r; std::tie(it, r) = s(rhs, x);
        std::cout << "as_preconditioner<ilu0>: iters=" << it << " resid=" << r << std::endl;
        if (!(r < 1e-6)) ++fails;
    } catch (const std::exception &e) { std::cout << "as_preconditioner<ilu0> threw: " << e.what() << std::endl; ++fails; }
    try {
        typedef amgcl::amg<B, amgcl::coarsening::smoothed_aggregation, amgcl::relaxation::spai0> PP;
        typedef amgcl::relaxation::as_preconditioner<B, amgcl::relaxation::spai0> SP;
        amgcl::make_solver<amgcl::preconditioner::cpr<PP, SP>, amgcl::solver::bicgstab<B>>::params prm;
        prm.precond.block_size = 2;
        amgcl::make_solver<amgcl::preconditioner::cpr<PP, SP>, amgcl::solver::bicgstab<B>> s(A, prm);
        std::fill(x.begin(), x.end(), 0.0);
        size_t it; double r; std::tie(it, r) = s(rhs, x);
        std::cout << "cpr: iters=" << it << " resid=" << r << std::endl;
        if (!(r < 1e-6)) ++fails;
    } catch (const std::exception &e) { std::cout << "cpr threw: " << e.what() << std::endl; ++fails; }
    std::cout << (fails ? "FAIL" : "PASS") << std::endl;
    return fails;
}
