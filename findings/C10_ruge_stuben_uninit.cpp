#include <iostream>
#include <vector>
#include <amgcl/backend/builtin.hpp>
#include <amgcl/adapter/crs_tuple.hpp>
#include <amgcl/amg.hpp>
#include <amgcl/coarsening/ruge_stuben.hpp>
#include <amgcl/relaxation/spai0.hpp>
int main() {
    typedef amgcl::backend::builtin<double> B;
    // 6x6 Laplacian-like matrix; row 2 has only POSITIVE off-diagonal entries (valid input, C10 degenerate case)
    int n = 6; std::vector<int> ptr{0}, col; std::vector<double> val;
    for (int i = 0; i < n; ++i) {
        double s = (i == 2) ? 1.0 : -1.0;
        if (i > 0)   { col.push_back(i-1); val.push_back(s); }
        col.push_back(i); val.push_back(4.0);
        if (i+1 < n) { col.push_back(i+1); val.push_back(s); }
        ptr.push_back(col.size());
    }
    amgcl::amg<B, amgcl::coarsening::ruge_stuben, amgcl::relaxation::spai0>::params prm;
    prm.coarse_enough = 1;
    amgcl::amg<B, amgcl::coarsening::ruge_stuben, amgcl::relaxation::spai0> P(std::tie(n, ptr, col, val), prm);
    std::vector<double> f(n, 1.0), x(n, 0.0);
    P.apply(f, x);
    double s = 0; for (double v : x) s += v;
    std::cout << "sum(x) = " << s << std::endl;
}
