#include <iostream>
#include <fstream>
#include <vector>
#include <amgcl/io/mm.hpp>
#include <amgcl/io/binary.hpp>
int main() {
    int fails = 0;
    { // MatrixMarket: valid 3x3 file with one corrupted digit in a column index (2 2 -> 2 9)
        std::ofstream f("bad.mtx");
        f << "%%MatrixMarket matrix coordinate real general\n3 3 3\n1 1 1.0\n2 9 2.0\n3 3 3.0\n";
        f.close();
        try {
            amgcl::io::mm_reader r("bad.mtx");
            std::vector<ptrdiff_t> ptr, col; std::vector<double> val;
            r(ptr, col, val);
            std::cout << "mm: no exception; col = {";
            for (auto c : col) std::cout << c << " "; std::cout << "} for a 3x3 matrix" << std::endl;
            for (auto c : col) if (c < 0 || c >= 3) { ++fails; break; }
        } catch (const std::exception &e) { std::cout << "mm: clean failure: " << e.what() << std::endl; }
    }
    { // binary CRS: valid 3x3 diagonal matrix, ptr[2] corrupted to 10^6
        size_t n = 3; std::vector<ptrdiff_t> ptr{0,1,1000000,3}, col{0,1,2}; std::vector<double> val{1,2,3};
        std::ofstream f("bad.bin", std::ios::binary);
        amgcl::io::write(f, n); amgcl::io::write(f, ptr); amgcl::io::write(f, col); amgcl::io::write(f, val);
        f.close();
        try {
            size_t m; std::vector<ptrdiff_t> p, c; std::vector<double> v;
            amgcl::io::read_crs("bad.bin", m, p, c, v);
            std::cout << "binary: no exception; ptr = {"; for (auto x : p) std::cout << x << " "; std::cout << "}" << std::endl;
            ++fails;
        } catch (const std::exception &e) { std::cout << "binary: clean failure: " << e.what() << std::endl; }
    }
    std::cout << (fails ? "FAIL" : "PASS") << std::endl; return fails;
}
