#include <iostream>
#include <vector>
#include <omp.h>
#include <sstream>
#include <iomanip>
#include <memory>
#include <set>
#include <map>
#include <complex>
#include <numeric>
#include <algorithm>
#include <random>
#include <boost/property_tree/ptree.hpp>
#define private public
#include <amgcl/backend/builtin.hpp>
#include <amgcl/relaxation/gauss_seidel.hpp>
#undef private
#include <amgcl/adapter/crs_tuple.hpp>
int main() {
    typedef amgcl::backend::builtin<double> B;
    // A = [[2,1],[0,2]]: row 0 reads x[1], row 1 reads nothing: structurally non-symmetric
    int n = 2; std::vector<int> ptr{0,2,3}, col{0,1,1}; std::vector<double> val{2,1,2};
    amgcl::backend::crs<double> A(std::tie(n, ptr, col, val));
    omp_set_num_threads(4);
    amgcl::relaxation::gauss_seidel<B>::params prm; B::params bprm;
    amgcl::relaxation::gauss_seidel<B> gs(A, prm, bprm);
    if (gs.is_serial) { std::cout << "serial fallback\n"; return 2; }
    // which (thread, level) owns each row in the forward schedule?
    std::vector<int> lev(n, -1), thr(n, -1);
    auto &F = *gs.forward;
    for (int t = 0; t < F.nthreads; ++t)
        for (size_t l = 0; l < F.tasks[t].size(); ++l)
            for (ptrdiff_t r = F.tasks[t][l].beg; r < F.tasks[t][l].end; ++r) { lev[F.ord[t][r]] = l; thr[F.ord[t][r]] = t; }
    std::cout << "row 0: level " << lev[0] << " thread " << thr[0] << ";  row 1: level " << lev[1] << " thread " << thr[1] << std::endl;
    bool bad = lev[0] == lev[1] && thr[0] != thr[1];   // row 0 reads x[1] while another thread writes it
    std::cout << (bad ? "FAIL: rows 0 and 1 (0 reads x[1]) are in the same level on different threads" : "PASS") << std::endl;
    return bad;
}
