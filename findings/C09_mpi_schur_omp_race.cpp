#include <iostream>
#include <vector>
#include <amgcl/backend/builtin.hpp>
#include <amgcl/adapter/crs_tuple.hpp>
#include <amgcl/mpi/util.hpp>
#include <amgcl/mpi/make_solver.hpp>
#include <amgcl/mpi/schur_pressure_correction.hpp>
#include <amgcl/mpi/relaxation/as_preconditioner.hpp>
#include <amgcl/mpi/relaxation/spai0.hpp>
#include <amgcl/mpi/solver/bicgstab.hpp>
#include <amgcl/profiler.hpp>
namespace amgcl { profiler<> prof; }
int main(int argc, char **argv) {
    MPI_Init(&argc, &argv);
    {
        amgcl::mpi::communicator comm(MPI_COMM_WORLD);
        typedef amgcl::backend::builtin<double> B;
        typedef amgcl::mpi::make_solver<amgcl::mpi::relaxation::as_preconditioner<amgcl::mpi::relaxation::spai0<B>>, amgcl::mpi::solver::bicgstab<B>> Sub;
        typedef amgcl::mpi::make_solver<amgcl::mpi::schur_pressure_correction<Sub, Sub>, amgcl::mpi::solver::bicgstab<B>> Solver;
        const int n = 64; std::vector<ptrdiff_t> ptr{0}, col; std::vector<double> val;
        for (int i = 0; i < n; ++i) { if (i) { col.push_back(i-1); val.push_back(-1); } col.push_back(i); val.push_back(4); if (i+1<n) { col.push_back(i+1); val.push_back(-1); } ptr.push_back(col.size()); }
        std::vector<char> pm(n, 0); for (int i = 3*n/4; i < n; ++i) pm[i] = 1;
        boost::property_tree::ptree prm;
        prm.put("precond.pmask_size", n); prm.put("precond.pmask", static_cast<void*>(pm.data()));
        prm.put("precond.approx_schur", true); prm.put("precond.simplec_dia", true);
        ptrdiff_t nn = n;
        Solver solve(comm, std::tie(nn, ptr, col, val), prm);
        std::vector<double> rhs(n, 1.0), x(n, 0.0);
        size_t it; double r; std::tie(it, r) = solve(rhs, x);
        std::cout << "iters=" << it << " resid=" << r << std::endl;
    }
    MPI_Finalize();
}
