// Known finding C14: mpi::cpr::params accepts "active_rows" without importing it (silently dropped)
#include <iostream>
#include <set>
#include <string>
static std::set<std::string> unknown_keys;
#define AMGCL_PARAM_UNKNOWN(name) unknown_keys.insert(name)
#include <amgcl/backend/builtin.hpp>
#include <amgcl/amg.hpp>
#include <amgcl/coarsening/smoothed_aggregation.hpp>
#include <amgcl/relaxation/spai0.hpp>
#include <amgcl/mpi/cpr.hpp>
#include <amgcl/mpi/amg.hpp>
#include <amgcl/mpi/coarsening/smoothed_aggregation.hpp>
#include <amgcl/mpi/relaxation/spai0.hpp>
#include <amgcl/mpi/relaxation/as_preconditioner.hpp>
#include <amgcl/mpi/direct_solver/skyline_lu.hpp>
#include <amgcl/mpi/partition/merge.hpp>
#include <amgcl/profiler.hpp>
namespace amgcl { profiler<> prof; }
int main() {
    typedef amgcl::backend::builtin<double> B;
    typedef amgcl::mpi::amg<B, amgcl::mpi::coarsening::smoothed_aggregation<B>, amgcl::mpi::relaxation::spai0<B>, amgcl::mpi::direct::skyline_lu<double>, amgcl::mpi::partition::merge<B>> PP;
    typedef amgcl::mpi::cpr<PP, amgcl::mpi::relaxation::as_preconditioner<amgcl::mpi::relaxation::spai0<B>>> CPR;
    boost::property_tree::ptree p, out;
    p.put("active_rows", 17); p.put("no_such_key", 1);
    CPR::params prm(p);
    prm.get(out, "");
    bool reported = unknown_keys.count("active_rows"), exported = out.count("active_rows");
    std::cout << "no_such_key reported: " << unknown_keys.count("no_such_key") << ";  active_rows reported: " << reported << ", exported back: " << exported << std::endl;
    bool ok = reported || exported;
    std::cout << (ok ? "PASS" : "FAIL (key accepted, has no effect, is not written back and is not reported)") << std::endl;
    return !ok;
}
