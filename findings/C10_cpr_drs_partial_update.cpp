// Replay for C10 rule F.null-deref-guarded: preconditioner::cpr_drs::partial_update(K, /*update_transfer_ops*/true) on scalar input calls
// first_scalar_pass(K, get_app = false), which leaves the pressure matrix pointer App null and then executes App->set_nonzeros(...).
// Build: g++ -std=gnu++17 -O1 -g -fopenmp -I<repo> C10_cpr_drs_partial_update.cpp ; exit 0 = the update runs and the action is unchanged.
#include <vector>
#include <iostream>
#include <tuple>
#include <cmath>
#include <amgcl/backend/builtin.hpp>
#include <amgcl/adapter/crs_tuple.hpp>
#include <amgcl/amg.hpp>
#include <amgcl/coarsening/aggregation.hpp>
#include <amgcl/relaxation/spai0.hpp>
#include <amgcl/relaxation/as_preconditioner.hpp>
#include <amgcl/preconditioner/cpr_drs.hpp>
#include <amgcl/profiler.hpp>
namespace amgcl { profiler<> prof; }
int main() {
    typedef amgcl::backend::builtin<double> B;
    typedef amgcl::preconditioner::cpr_drs<
        amgcl::amg<B, amgcl::coarsening::aggregation, amgcl::relaxation::spai0>,
        amgcl::relaxation::as_preconditioner<B, amgcl::relaxation::spai0> > CPR;
    const int nb = 200, Bs = 2, n = nb * Bs;
    std::vector<ptrdiff_t> ptr(1, 0), col; std::vector<double> val;
    for (int ib = 0; ib < nb; ++ib) for (int k = 0; k < Bs; ++k) {
        for (int jb = std::max(0, ib - 1); jb <= std::min(nb - 1, ib + 1); ++jb) for (int l = 0; l < Bs; ++l) {
            col.push_back(jb * Bs + l); val.push_back((ib == jb) ? (k == l ? 4.0 : -0.5) : (k == l ? -1.0 : -0.1));
        }
        ptr.push_back(col.size());
    }
    auto K = std::tie(n, ptr, col, val);
    CPR::params prm; prm.block_size = Bs;
    CPR P(K, prm);
    std::vector<double> f(n, 1.0), x0(n, 0.0), x1(n, 0.0);
    P.apply(f, x0);
    std::cout << "constructed; calling partial_update(K, true)" << std::endl;
    P.partial_update(K, true);
    P.apply(f, x1);
    double d = 0; for (int i = 0; i < n; ++i) d = std::max(d, std::abs(x0[i] - x1[i]));
    std::cout << "partial_update with the unchanged matrix: max |dx| = " << d << std::endl;
    std::cout << (d < 1e-12 ? "PASS" : "FAIL") << std::endl;
    return d < 1e-12 ? 0 : 1;
}
