#include <iostream>
#include <vector>
#include <amgcl/backend/builtin.hpp>
#include <amgcl/adapter/crs_tuple.hpp>
#include <amgcl/mpi/util.hpp>
#include <amgcl/mpi/distributed_matrix.hpp>
#include <amgcl/profiler.hpp>
namespace amgcl { profiler<> prof; }
int main(int argc, char **argv) {
    MPI_Init(&argc, &argv);
    int rc = 0;
    {
        amgcl::mpi::communicator comm(MPI_COMM_WORLD);
        typedef amgcl::backend::builtin<double> B;
        // global 4x4 diagonal matrix diag(1,2,5,10); rows split 2 + 2 over two ranks
        ptrdiff_t n = 2; std::vector<ptrdiff_t> ptr{0,1,2}, col; std::vector<double> val;
        if (comm.rank == 0) { col = {0,1}; val = {1,2}; } else { col = {2,3}; val = {5,10}; }
        amgcl::mpi::distributed_matrix<B> A(comm, std::tie(n, ptr, col, val), 2);
        double r = amgcl::backend::spectral_radius<false>(A, 0);   // Gershgorin bound; serial value is 10
        std::vector<double> all(comm.size);
        MPI_Allgather(&r, 1, MPI_DOUBLE, all.data(), 1, MPI_DOUBLE, comm);
        if (comm.rank == 0) {
            std::cout << "Gershgorin estimate per rank:"; for (double v : all) std::cout << " " << v; std::cout << "  (serial: 10)" << std::endl;
            for (double v : all) if (v != 10) rc = 1;
            std::cout << (rc ? "FAIL" : "PASS") << std::endl;
        }
    }
    MPI_Finalize();
    return rc;
}
