#include <iostream>
#include <complex>
#include <amgcl/value_type/interface.hpp>
#include <amgcl/value_type/complex.hpp>
#include <amgcl/value_type/static_matrix.hpp>
#include <amgcl/value_type/eigen.hpp>
int main() {
    typedef std::complex<double> C;
    amgcl::static_matrix<C,2,1> sx, sy; Eigen::Matrix<C,2,1> ex, ey;
    sx(0)=C(1,2); sx(1)=C(3,-1); sy(0)=C(0,1); sy(1)=C(2,2);
    for(int i=0;i<2;++i){ ex(i)=sx(i); ey(i)=sy(i); }
    C s = amgcl::math::inner_product(sx, sy), e = amgcl::math::inner_product(ex, ey);
    C ref = sx(0)*std::conj(sy(0)) + sx(1)*std::conj(sy(1));
    std::cout << "static_matrix: " << s << "  eigen: " << e << "  x.conj(y): " << ref << std::endl;
    amgcl::static_matrix<C,2,2> SX, SY; Eigen::Matrix<C,2,2> EX, EY;
    for(int i=0;i<2;++i) for(int j=0;j<2;++j){ SX(i,j)=C(i+1,j-1); SY(i,j)=C(j,2*i+1); EX(i,j)=SX(i,j); EY(i,j)=SY(i,j);}
    auto SP = amgcl::math::inner_product(SX,SY); auto EP = amgcl::math::inner_product(EX,EY);
    double d=0; for(int i=0;i<2;++i) for(int j=0;j<2;++j) d+=std::abs(SP(i,j)-EP(i,j));
    std::cout << "matrix case |diff| = " << d << std::endl;
    bool ok = std::abs(s-e) < 1e-14 && d < 1e-14;
    std::cout << (ok ? "PASS" : "FAIL") << std::endl; return !ok;
}
